import FcpModel
/-!
# C02 — the Python codec emits and accepts exactly the canonical wire format

`Wire.enc`/`dec` is the canonical format (fields in ascending id, LSB-first bit packing,
two's complement, IEEE words, u32 counts, u8 presence flag, zero padding in the last
byte only).  It is tied to the project's vectors by `Generated/Vectors.lean`
(regenerated from `tests/standardized/fcp_tests.json` on every run) and to the C++ code
by C03's correspondence.
-/
namespace Fcp

/-- **C02, encode direction**: the bytes the Python encoder produces are the canonical bytes -/
theorem C02_encode_canonical (S : Schema) (fuel : Nat) (name : String) (ty : Ty) (v : Val)
    (hr : resolve S fuel (.struct name) = some ty) (hv : wf ty v = true) :
    pyEncode S fuel name v = .ok (encBytes ty v) :=
  pyEncode_refines S fuel name ty v hr hv

/-- **C02, decode direction**: the Python decoder recovers the value from its canonical bytes -/
theorem C02_decode_canonical (S : Schema) (fuel : Nat) (name : String) (ty : Ty) (v : Val)
    (hr : resolve S fuel (.struct name) = some ty) (hv : wf ty v = true) :
    pyDecode S fuel name (encBytes ty v) = .ok v := by
  have h := pyDecode_refines S fuel name ty (encBytes ty v) hr
  rw [decBytes_encBytes ty v hv] at h
  exact h

/-- on *every* byte string the Python decoder agrees with the canonical decoder:
same value on success, an error exactly when the canonical decoder fails -/
theorem C02_decode_agrees (S : Schema) (fuel : Nat) (name : String) (ty : Ty) (bytes : List Nat)
    (hr : resolve S fuel (.struct name) = some ty) :
    match decBytes ty bytes with
    | some v => pyDecode S fuel name bytes = .ok v
    | none => ∃ e, pyDecode S fuel name bytes = .error e :=
  pyDecode_refines S fuel name ty bytes hr

/-! structural facts of the canonical format listed in the statement -/

/-- fields in order: a struct is the concatenation of its fields' encodings -/
theorem C02_field_order (n : String) (id : Int) (t r : Ty) (v vs : Val) :
    enc (.field n id t r) (.cons v vs) = enc t v ++ enc r vs := rfl

/-- scalars are bit-packed LSB first: bit `i` of the word is the `i`-th bit written -/
theorem C02_uint_lsb_first (n : Nat) (x : Nat) (i : Nat) (hi : i < n) :
    (enc (.uint n) (.int x))[i]? = some (x.testBit i) := by
  simp only [enc, Int.toNat_natCast]
  rw [natBits_getElem?, if_pos hi]

/-- two's complement integers -/
theorem C02_sint_twos (n : Nat) (i : Int) : enc (.sint n) (.int i) = natBits n (toTwos n i) := rfl

/-- a u32 count precedes strings and dynamic arrays -/
theorem C02_prefix_u32 (t : Ty) (v : Val) (cs : List Nat) :
    (enc (.dyn t) v).take 32 = natBits 32 (vlen v) ∧
    (enc .str (.str cs)).take 32 = natBits 32 cs.length := by
  simp [enc]

/-- a one-byte presence flag precedes optionals -/
theorem C02_opt_flag (t : Ty) (v : Val) :
    enc (.opt t) .none = natBits 8 0 ∧ (enc (.opt t) (.some v)).take 8 = natBits 8 1 := by
  simp [enc]

/-- no padding except in the last byte, where it is zero: unpacking the bytes gives the
bits followed by fewer than 8 zero bits -/
theorem C02_padding (t : Ty) (v : Val) :
    ∃ k, k < 8 ∧ unpack (encBytes t v) = enc t v ++ List.replicate k false :=
  ⟨_, unpack_pack_pad_lt _, unpack_pack _⟩

/-- the canonical encoding is injective on in-range values (two values never share bytes) -/
theorem C02_injective (t : Ty) (v w : Val) (hv : wf t v = true) (hw : wf t w = true)
    (h : enc t v = enc t w) : v = w := enc_injective t v w hv hw h

/-! non-vacuity: the `static_array_enum` vector of the project (`[S1,S2,S0,S1]` → 73) -/
example : encBytes (.field "s1" 0 (.arr (.enum 2) 4) .unit)
    (.cons (.cons (.int 1) (.cons (.int 2) (.cons (.int 0) (.cons (.int 1) .nil)))) .nil) = [73] := by
  decide

end Fcp
