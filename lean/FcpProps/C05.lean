import FcpModel
/-!
# C05 — the generated DBC describes exactly the packed layout

`expectedDbc` is what `fcp_dbc` hands to cantools (one message per CAN binding, one signal
per layout leaf).  The theorems are about that description; the text cantools prints is read
back by the harness' own reader on every run.
-/
namespace Fcp

/-- a message is emitted only if the layout exists and fits; its length is `⌈bits/8⌉` and at
most 8 bytes -/
theorem C05_message_length (S : Schema) (fuel : Nat) (i : Impl) (m : DbcMessage) (ls : List Leaf)
    (e : Nat) (hg : generate S true fuel i = some (ls, e)) (h : dbcMessage S fuel i = .ok m) :
    e ≤ 64 ∧ m.dlc = (e + 7) / 8 ∧ m.dlc ≤ 8 ∧ m.name = i.name := by
  unfold dbcMessage at h
  rw [hg] at h
  simp only at h
  cases hm : makeSignals ls with
  | error err => rw [hm] at h; cases h
  | ok r =>
    obtain ⟨sigs, dlc⟩ := r
    rw [hm] at h
    simp only at h
    have := makeSignals_ok_fits ls sigs dlc 0 e (generate_tiles S true fuel i ls e hg) rfl hm
    split at h
    · simp only [Except.ok.injEq] at h
      subst h
      obtain ⟨h1, h2⟩ := this
      exact ⟨h1, h2, by show dlc ≤ 8; omega, rfl⟩
    · cases h

/-- one signal per layout leaf, in the same order, with the leaf's bit length, and the
leaf's bit position (shifted by 7 to the MSB for non-little-endian signals) -/
theorem C05_signals (ls : List Leaf) (sigs : List DbcSignal) (dlc : Nat)
    (h : makeSignals ls = .ok (sigs, dlc)) :
    sigs.length = ls.length ∧
    ∀ k (hk : k < ls.length) (hk' : k < sigs.length),
      sigs[k].length = ls[k].len ∧
      sigs[k].start = (if ls[k].endian != "little" then ls[k].start + 7 else ls[k].start) ∧
      sigs[k].signed = ls[k].ty.isSigned ∧ sigs[k].isFloat = ls[k].ty.isFloat ∧
      sigs[k].unit = ls[k].unit ∧ sigs[k].bigEndian = (ls[k].endian == "big") := by
  unfold makeSignals at h
  split at h
  · cases h
  · split at h
    · cases h
    · simp only [Except.ok.injEq, Prod.mk.injEq] at h
      obtain ⟨rfl, _⟩ := h
      refine ⟨by simp, ?_⟩
      intro k hk hk'
      simp

/-- **decode ∘ pack = id**: in a frame packed according to a layout, reading the Intel bit
range of any leaf returns that leaf's value (as its two's-complement word) -/
theorem C05_decode_pack (S : Schema) (fuel : Nat) (i : Impl) (ls : List Leaf) (e : Nat)
    (hg : generate S true fuel i = some (ls, e)) (vs : List Int) (hv : vs.length = ls.length)
    (k : Nat) (hk : k < ls.length) :
    extractIntel (packLeaves ls vs) ls[k].start ls[k].len = toTwos ls[k].len (vs[k]'(by omega)) := by
  have := extract_pack ls vs 0 e (generate_tiles S true fuel i ls e hg) hv k hk
  simpa using this

/-- **decode ∘ pack = id for both byte orders**: with big-endian leaves placed most significant
byte first (`packLeavesE`), reading every signal as the generated DBC describes it — Intel at
`start`, Motorola at `start + 7` (`C05_signals`) — returns the value.  Big-endian leaves are
byte-aligned whole bytes (the only Motorola signals the generator supports) -/
theorem C05_decode_pack_both (S : Schema) (fuel : Nat) (i : Impl) (ls : List Leaf) (e : Nat)
    (hg : generate S true fuel i = some (ls, e)) (vs : List Int) (hv : vs.length = ls.length)
    (hbig : ∀ l ∈ ls, l.endian = "big" → l.len % 8 = 0 ∧ l.start % 8 = 0)
    (k : Nat) (hk : k < ls.length) :
    (if ls[k].endian == "big" then extractMotorola (packLeavesE ls vs) (ls[k].start + 7) ls[k].len
     else extractIntel (packLeavesE ls vs) ls[k].start ls[k].len) = toTwos ls[k].len (vs[k]'(by omega)) :=
  extract_packE ls vs e (generate_tiles S true fuel i ls e hg) hv hbig k hk

/-- the packed frame has exactly as many bits as the layout -/
theorem C05_frame_bits (S : Schema) (fuel : Nat) (i : Impl) (ls : List Leaf) (e : Nat)
    (hg : generate S true fuel i = some (ls, e)) (vs : List Int) (hv : vs.length = ls.length) :
    (packLeaves ls vs).length = e := by
  have := packLeaves_length 0 e ls vs (generate_tiles S true fuel i ls e hg) hv
  omega

/-! non-vacuity: the schema of C04's example, as a DBC message -/
def C05_S : Schema := {
  structs := [{ name := "A", fields := [{ name := "b", id := 2, ty := .i 16 },
                                        { name := "a", id := 1, ty := .u 8, unit := some "V" }] }],
  impls := [{ name := "A", protocol := "can", type := "A", fields := [("id", .int 10)],
              signals := [{ name := "b", fields := [("endianess", .str "big")] }] }] }
example : ((dbcMessage C05_S 5 C05_S.impls.head!).toOption.map fun m => (m.frameId, m.dlc)) =
    some ((10 : Int), 3) := by decide
example : ((dbcMessage C05_S 5 C05_S.impls.head!).toOption.map fun m =>
    m.signals.map fun s => (s.start, s.length, s.bigEndian, s.signed)) =
    some [(0, 8, false, false), (15, 16, true, true)] := by decide

/-- Motorola non-vacuity: `u8` then big-endian `i16` holding -2: bytes `07 ff fe`, read back -/
example : let ls := ((generate C05_S true 5 C05_S.impls.head!).map (·.1)).getD []
    pack (packLeavesE ls [7, -2]) = [7, 255, 254] ∧
    extractMotorola (packLeavesE ls [7, -2]) 15 16 = toTwos 16 (-2) := by decide

end Fcp
