import FcpModel
/-!
# C05 — the generated DBC describes exactly the packed layout

`expectedDbc` is what `fcp_dbc` hands to cantools (one message per CAN binding, one signal
per layout leaf).  The theorems are about that description; the text cantools prints is read
back by the harness' own reader on every run.
-/
namespace Fcp

/-- a message is emitted only if the layout exists and fits; its length is `⌈bits/8⌉` and at
most 8 bytes -/
theorem C05_message_length (S : Schema) (fuel : Nat) (i : Impl) (m : DbcMessage) (ls : List Leaf)
    (e : Nat) (hg : generate S true fuel i = some (ls, e)) (h : dbcMessage S fuel i = .ok m) :
    e ≤ 64 ∧ m.dlc = (e + 7) / 8 ∧ m.dlc ≤ 8 ∧ m.name = i.name := by
  unfold dbcMessage at h
  rw [hg] at h
  simp only at h
  cases hm : makeSignals ls with
  | error err => rw [hm] at h; cases h
  | ok r =>
    obtain ⟨sigs, dlc⟩ := r
    rw [hm] at h
    simp only at h
    have := makeSignals_ok_fits ls sigs dlc 0 e (generate_tiles S true fuel i ls e hg) rfl hm
    split at h
    · simp only [Except.ok.injEq] at h
      subst h
      obtain ⟨h1, h2⟩ := this
      exact ⟨h1, h2, by show dlc ≤ 8; omega, rfl⟩
    · cases h

/-- one signal per layout leaf, in the same order, with the leaf's bit length, and the
leaf's bit position (shifted by 7 to the MSB for non-little-endian signals) -/
theorem C05_signals (ls : List Leaf) (sigs : List DbcSignal) (dlc : Nat)
    (h : makeSignals ls = .ok (sigs, dlc)) :
    sigs.length = ls.length ∧
    ∀ k (hk : k < ls.length) (hk' : k < sigs.length),
      sigs[k].length = ls[k].len ∧
      sigs[k].start = (if ls[k].endian != "little" then ls[k].start + 7 else ls[k].start) ∧
      sigs[k].signed = ls[k].ty.isSigned ∧ sigs[k].isFloat = ls[k].ty.isFloat ∧
      sigs[k].unit = ls[k].unit ∧ sigs[k].bigEndian = (ls[k].endian == "big") := by
  unfold makeSignals at h
  split at h
  · cases h
  · split at h
    · cases h
    · simp only [Except.ok.injEq, Prod.mk.injEq] at h
      obtain ⟨rfl, _⟩ := h
      refine ⟨by simp, ?_⟩
      intro k hk hk'
      simp

/-- **decode ∘ pack = id**: in a frame packed according to a layout, reading the Intel bit
range of any leaf returns that leaf's value (as its two's-complement word) -/
theorem C05_decode_pack (S : Schema) (fuel : Nat) (i : Impl) (ls : List Leaf) (e : Nat)
    (hg : generate S true fuel i = some (ls, e)) (vs : List Int) (hv : vs.length = ls.length)
    (k : Nat) (hk : k < ls.length) :
    extractIntel (packLeaves ls vs) ls[k].start ls[k].len = toTwos ls[k].len (vs[k]'(by omega)) := by
  have := extract_pack ls vs 0 e (generate_tiles S true fuel i ls e hg) hv k hk
  simpa using this

/-- **decode ∘ pack = id for both byte orders**: with big-endian leaves placed most significant
byte first (`packLeavesE`), reading every signal as the generated DBC describes it — Intel at
`start`, Motorola at `start + 7` (`C05_signals`) — returns the value.  Big-endian leaves are
byte-aligned whole bytes (the only Motorola signals the generator supports) -/
theorem C05_decode_pack_both (S : Schema) (fuel : Nat) (i : Impl) (ls : List Leaf) (e : Nat)
    (hg : generate S true fuel i = some (ls, e)) (vs : List Int) (hv : vs.length = ls.length)
    (hbig : ∀ l ∈ ls, l.endian = "big" → l.len % 8 = 0 ∧ l.start % 8 = 0)
    (k : Nat) (hk : k < ls.length) :
    (if ls[k].endian == "big" then extractMotorola (packLeavesE ls vs) (ls[k].start + 7) ls[k].len
     else extractIntel (packLeavesE ls vs) ls[k].start ls[k].len) = toTwos ls[k].len (vs[k]'(by omega)) :=
  extract_packE ls vs e (generate_tiles S true fuel i ls e hg) hv hbig k hk

/-- the packed frame has exactly as many bits as the layout -/
theorem C05_frame_bits (S : Schema) (fuel : Nat) (i : Impl) (ls : List Leaf) (e : Nat)
    (hg : generate S true fuel i = some (ls, e)) (vs : List Int) (hv : vs.length = ls.length) :
    (packLeaves ls vs).length = e := by
  have := packLeaves_length 0 e ls vs (generate_tiles S true fuel i ls e hg) hv
  omega


/-- **multiplexing**: signal `k` is a multiplexer switch exactly when some leaf of the message
names it in its `mux_signal` option; its multiplexer ids are `0 .. mux_count-1` of its own
`mux_count` option and its switch is its own `mux_signal` option -/
theorem C05_multiplexing (ls : List Leaf) (sigs : List DbcSignal) (dlc : Nat)
    (h : makeSignals ls = .ok (sigs, dlc)) (k : Nat) (hk : k < ls.length) (hk' : k < sigs.length) :
    (sigs[k].isMux = true ↔ ∃ l ∈ ls, (l.opts.lookup "mux_signal").bind xvalStr? = some ls[k].name) ∧
    sigs[k].muxSignal = (ls[k].opts.lookup "mux_signal").bind xvalStr? ∧
    sigs[k].muxIds = (match ls[k].opts.lookup "mux_count" with
                      | some (.int n) => some (List.range n.toNat)
                      | _ => none) ∧
    sigs[k].name = replaceColons ls[k].name := by
  unfold makeSignals at h
  split at h
  · cases h
  · split at h
    · cases h
    · simp only [Except.ok.injEq, Prod.mk.injEq] at h
      obtain ⟨rfl, _⟩ := h
      refine ⟨?_, by simp, ?_, by simp⟩
      · simp only [List.getElem_map, List.contains_iff_mem, List.mem_filterMap]
      · simp only [List.getElem_map]
        split <;> simp_all

/-- **each bus file contains exactly the messages bound to that bus**: the generated description
has one entry per distinct bus; the entry of bus `b` consists of the messages of exactly the CAN
bindings that name `b`, in binding order (and is not empty); every CAN binding's bus has an entry -/
theorem C05_bus_partition (S : Schema) (fuel : Nat) (out : List (String × List DbcMessage))
    (h : expectedDbc S fuel = .ok out) :
    (out.map (·.1)).Nodup ∧
    (∀ b ms, (b, ms) ∈ out →
      Pointwise (fun i m => dbcMessage S fuel i = .ok m)
        ((S.impls.filter (·.protocol == "can")).filter (·.busName == b)) ms ∧ ms ≠ []) ∧
    (∀ i ∈ S.impls, i.protocol = "can" → ∃ ms, (i.busName, ms) ∈ out) := by
  unfold expectedDbc at h
  cases hp : (S.impls.filter (·.protocol == "can")).mapM
      (fun i => (dbcMessage S fuel i).map fun m => (i.busName, m)) with
  | error e => simp [hp, bind, Except.bind] at h
  | ok pairs =>
    simp only [hp, bind, Except.bind, pure, Except.pure, Except.ok.injEq] at h
    subst h
    have hpw := mapM_ok_forall₂ _ _ _ hp
    obtain ⟨hnd, hms, hall⟩ := groupByBus_partition pairs
    -- along the pointwise relation: the pair's bus is the binding's bus, its message the binding's message
    have hpair : ∀ (i : Impl) (p : String × DbcMessage),
        (dbcMessage S fuel i).map (fun m => (i.busName, m)) = .ok p →
        dbcMessage S fuel i = .ok p.2 ∧ p.1 = i.busName := by
      intro i p hxy
      cases hd : dbcMessage S fuel i with
      | error e => simp [hd, Except.map] at hxy
      | ok m =>
        simp only [hd, Except.map, Except.ok.injEq] at hxy
        subst hxy
        exact ⟨rfl, rfl⟩
    refine ⟨hnd, ?_, ?_⟩
    · intro b ms hb
      obtain ⟨h1, h2⟩ := hms b ms hb
      refine ⟨?_, h2⟩
      have hpw' := hpw.imp (R' := fun (i : Impl) (p : String × DbcMessage) =>
          dbcMessage S fuel i = .ok p.2 ∧ (i.busName == b) = (p.1 == b))
        (fun i p hxy => by obtain ⟨ha, hb⟩ := hpair i p hxy; exact ⟨ha, by rw [hb]⟩)
      have hf := forall₂_filter (fun (i : Impl) (p : String × DbcMessage) => dbcMessage S fuel i = .ok p.2)
        (·.busName == b) (·.1 == b) _ _ hpw'
      rw [h1]
      exact Pointwise.map_right (R := fun (i : Impl) (m : DbcMessage) => dbcMessage S fuel i = .ok m) (fun (p : String × DbcMessage) => p.2) hf
    · intro i hi hcan
      have himem : i ∈ S.impls.filter (·.protocol == "can") := by
        simp [List.mem_filter, hi, hcan]
      obtain ⟨p, hp1, hxy⟩ := hpw.exists_of_mem_left himem
      obtain ⟨ms, hin⟩ := hall p hp1
      exact ⟨ms, (hpair i p hxy).2 ▸ hin⟩

/-! non-vacuity: two buses, bindings interleaved -/
def C05_S2 : Schema := {
  structs := [{ name := "A", fields := [{ name := "a", id := 0, ty := .u 8 }] }],
  impls := [{ name := "A", protocol := "can", type := "A", fields := [("id", .int 10), ("bus", .str "x")], signals := [] },
            { name := "B", protocol := "can", type := "A", fields := [("id", .int 11), ("bus", .str "y")], signals := [] },
            { name := "C", protocol := "can", type := "A", fields := [("id", .int 12), ("bus", .str "x")], signals := [] }] }
example : ((expectedDbc C05_S2 5).toOption.map fun out => out.map fun (b, ms) => (b, ms.map (·.name))) =
    some [("x", ["A", "C"]), ("y", ["B"])] := by decide

/-! non-vacuity: the schema of C04's example, as a DBC message -/
def C05_S : Schema := {
  structs := [{ name := "A", fields := [{ name := "b", id := 2, ty := .i 16 },
                                        { name := "a", id := 1, ty := .u 8, unit := some "V" }] }],
  impls := [{ name := "A", protocol := "can", type := "A", fields := [("id", .int 10)],
              signals := [{ name := "b", fields := [("endianess", .str "big")] }] }] }
example : ((dbcMessage C05_S 5 C05_S.impls.head!).toOption.map fun m => (m.frameId, m.dlc)) =
    some ((10 : Int), 3) := by decide
example : ((dbcMessage C05_S 5 C05_S.impls.head!).toOption.map fun m =>
    m.signals.map fun s => (s.start, s.length, s.bigEndian, s.signed)) =
    some [(0, 8, false, false), (15, 16, true, true)] := by decide

/-- Motorola non-vacuity: `u8` then big-endian `i16` holding -2: bytes `07 ff fe`, read back -/
example : let ls := ((generate C05_S true 5 C05_S.impls.head!).map (·.1)).getD []
    pack (packLeavesE ls [7, -2]) = [7, 255, 254] ∧
    extractMotorola (packLeavesE ls [7, -2]) 15 16 = toTwos 16 (-2) := by decide

end Fcp
