import FcpModel
/-!
# C11 — the parser is total: every input yields a schema or a renderable error

That no exception escapes is CPython behaviour (Lark's `VisitError`, beartype, `assert`): a
model cannot exhibit it, only predict that none should occur, and the harness checks it on
five malformed streams; in that respect the level stays "partial".  What is proved is about
the *reference* front end: it is total by construction (`Except`), and **every line it cites
for a lexical or a syntax error exists in the source** (`C11_error_lines`): the lexer's
bookkeeping (`lex_lines`) composed with a safety invariant carried through every production of
the parser (`FcpModel/SyntaxLines.lean`: an error's line is the line of a token of the input,
or the running last line, itself a token line).
-/
namespace Fcp
open Syntax Frontend

/-- every token line and every lexical error line is between 1 and the number of lines -/
theorem C11_lexer_lines_partial (src : String) :
    (∀ ts, lex src = .ok ts → ∀ t ∈ ts, 1 ≤ t.line ∧ t.line ≤ 1 + nl src.toList) ∧
    (∀ e, lex src = .error e → 1 ≤ e.line ∧ e.line ≤ 1 + nl src.toList) :=
  lex_lines src

/-- **cited lines exist**: whatever the input text, a lexical or syntax error of the reference
front end cites a line between 1 and the number of lines of that text -/
theorem C11_error_lines (src : String) (e : SynErr) (h : parseText src = .error e) :
    1 ≤ e.line ∧ e.line ≤ 1 + nl src.toList :=
  parseText_lines src e h

/-- and that is the line the error value of the loader carries, together with the file -/
theorem C11_error_value_lines (fs : FS) (fuel : Nat) (path : List String) (src : String) (e : SynErr)
    (h : parseText src = .error e) :
    loadFile fs (fuel + 1) path src = .error [⟨"syntax", e.msg, some (path.getLast?.getD ""), some e.line⟩] ∧
    1 ≤ e.line ∧ e.line ≤ 1 + nl src.toList := by
  refine ⟨by simp [loadFile, h], parseText_lines src e h⟩

/-- the reference front end is total: for every file system, root and fuel it returns a
tree or an error value (a typing fact, recorded as a theorem for the audit) -/
theorem C11_total_partial (fs : FS) (fuel : Nat) (path : List String) (src : String) :
    (∃ t, loadFile fs fuel path src = .ok t) ∨ (∃ e, loadFile fs fuel path src = .error e) := by
  cases h : loadFile fs fuel path src with
  | ok t => exact Or.inl ⟨t, rfl⟩
  | error e => exact Or.inr ⟨e, rfl⟩

/-- a syntax error of a file is reported as an error value citing that file -/
theorem C11_syntax_error_value_partial (fs : FS) (fuel : Nat) (path : List String) (src : String)
    (e : SynErr) (h : parseText src = .error e) :
    loadFile fs (fuel + 1) path src =
      .error [⟨"syntax", e.msg, some (path.getLast?.getD ""), some e.line⟩] := by
  simp [loadFile, h]

/-! ## rendering (`Logger.error`, FcpModel/Render.lean) -/

/-- **an error value can be rendered exactly when each of its citations can be resolved**: the
cited source is registered with the logger (under its full path or its base name) and the cited
line is not beyond the last line of that source -/
theorem C11_render_iff (srcs : Render.Sources) (ms : List Render.RMsg) :
    (Render.render srcs true ms).isSome ↔
      ∀ m ∈ ms, ∀ c, m.cite = some c →
        ∃ src, Render.findSource srcs c = some src ∧ c.line ≤ 1 + nl src :=
  Render.render_isSome_iff srcs true ms

/-- the line quoted under a citation is that line of the cited source -/
theorem C11_quoted_line (srcs : Render.Sources) (first : Bool) (m : Render.RMsg) (c : Render.Cite)
    (out : List Char) (hc : m.cite = some c) (h : Render.renderMsg srcs first m = some out) :
    ∃ src l, Render.findSource srcs c = some src ∧ Render.lineAt (Render.splitNl src) c.line = some l ∧
      out = Render.header first m ++ Render.citeLine c ++ ['\n'] ++ Render.logLocation l c.line :=
  Render.renderMsg_eq srcs first m c out hc h

/-- **lexical and syntax errors are renderable**: whatever the text of a file, if it does not
parse, the error value of the loader can be rendered by a logger that has the file's text
registered under its name — the composition of `C11_error_lines` with `C11_render_iff` -/
theorem C11_syntax_error_renders (fs : FS) (fuel : Nat) (path : List String) (src : String) (e : SynErr)
    (h : parseText src = .error e) (srcs : Render.Sources)
    (hreg : srcs.lookup (path.getLast?.getD "") = some src.toList) :
    ∃ errs, loadFile fs (fuel + 1) path src = .error errs ∧
      (Render.render srcs true (errs.map Render.ofEMsg)).isSome := by
  refine ⟨[⟨"syntax", e.msg, some (path.getLast?.getD ""), some e.line⟩], by simp [loadFile, h], ?_⟩
  rw [Render.render_isSome_iff]
  intro m hm c hc
  simp only [List.map_cons, List.map_nil, List.mem_singleton] at hm
  subst hm
  simp only [Render.ofEMsg, Option.some.injEq] at hc
  subst hc
  refine ⟨src.toList, by simp [Render.findSource, hreg], (parseText_lines src e h).2⟩

/-- **every citation of every error value exists**: whatever the file system and the root, each
entry of an error chain returned by the reference loader that carries a file and a line names
the root or a file of the file system, and the line is between 1 and the number of lines of that
file — for lexical, syntax *and* elaboration errors (unknown type, bad parameter, empty enum,
non-integer ids, wrong version), inside modules at any import depth, and for the `mod`
statements above them (FcpModel/RenderLoad.lean) -/
theorem C11_all_error_lines (fs : FS) (root : List String) (e : Err) (h : load fs root = .error e) :
    ∀ m ∈ e, ∀ f l, m.file = some f → m.line = some l →
      ∃ p s, fs.read p = some s ∧ p.getLast?.getD "" = f ∧ 1 ≤ l ∧ l ≤ 1 + nl s.toList := by
  unfold load at h
  cases hr : fs.read root with
  | none =>
    rw [hr] at h
    simp only [Except.error.injEq] at h
    subst h
    intro m hm f l hf _
    simp only [List.mem_singleton] at hm
    subst hm
    cases hf
  | some src =>
    rw [hr] at h
    simp only at h
    intro m hm f l hf hl
    obtain ⟨p, s, hk, hp, hb⟩ := loadFile_cites fs root src 16 root src (Or.inl ⟨rfl, rfl⟩) e h m hm f l hf hl
    rcases hk with ⟨rfl, rfl⟩ | hk
    · exact ⟨p, s, hr, hp, hb⟩
    · exact ⟨p, s, hk, hp, hb⟩

/-- **every error value of the loader can be rendered**, by a logger whose registry holds the
text of every file under its name.  Partial in one respect: the entries of the model carry base
names only, so the registry is required to be unambiguous (no two files of the tree with one
base name); the implementation also registers full paths, and namesake modules are covered by
the correspondence (C20's clusters) rather than by this theorem -/
theorem C11_load_errors_render_partial (fs : FS) (root : List String) (e : Err) (h : load fs root = .error e)
    (srcs : Render.Sources)
    (hreg : ∀ p s, fs.read p = some s → srcs.lookup (p.getLast?.getD "") = some s.toList) :
    (Render.render srcs true (e.map Render.ofEMsg)).isSome := by
  rw [Render.render_isSome_iff]
  intro rm hrm c hc
  obtain ⟨m, hm, rfl⟩ := List.mem_map.mp hrm
  unfold Render.ofEMsg at hc
  simp only at hc
  cases hf : m.file with
  | none => rw [hf] at hc; simp at hc
  | some f =>
    cases hl : m.line with
    | none => rw [hf, hl] at hc; simp at hc
    | some l =>
      rw [hf, hl] at hc
      simp only [Option.some.injEq] at hc
      subst hc
      obtain ⟨p, s, hr, hp, _, hb⟩ := C11_all_error_lines fs root e h m hm f l hf hl
      refine ⟨s.toList, ?_, hb⟩
      have := hreg p s hr
      rw [hp] at this
      simp [Render.findSource, this]

/-- non-vacuity of `C11_all_error_lines`: an elaboration error (empty enum) inside an imported
module; the chain cites line 2 of the module, then the `mod` statement on line 2 of the root -/
def nvFs : FS := [(["main.fcp"], "version: \"3\"\nmod a;\n"), (["a.fcp"], "version: \"3\"\nenum E {\n}\n")]

def nvCites (r : Except Err Tree) : List (Option String × Option Nat) :=
  match r with | .error e => e.map (fun (m : EMsg) => (m.file, m.line)) | .ok _ => []

example : nvCites (load nvFs ["main.fcp"]) =
    [(some "a.fcp", some 2), (none, none), (some "main.fcp", some 2), (none, none)] := by decide

/-- non-vacuity: a two-line source, an error citing its second line, and the rendered text -/
example : Render.render [("a.fcp", "x\ny".toList)] true [⟨"boom".toList, some ⟨"a.fcp", "a.fcp", 2⟩⟩] =
    some "  → Error: boom\n   ↳ [a.fcp:2]\n  |\n2 | y\n  | ~\n".toList := by decide

/-- ... and a citation beyond the end (or of an unregistered file) cannot be rendered: the `IndexError` / `KeyError`
of `Logger.log_node` -/
example : Render.render [("a.fcp", "x\ny".toList)] true [⟨"boom".toList, some ⟨"a.fcp", "a.fcp", 3⟩⟩] = none ∧
    Render.render [("a.fcp", "x\ny".toList)] true [⟨"boom".toList, some ⟨"b.fcp", "b.fcp", 1⟩⟩] = none := by decide

end Fcp
