import FcpModel
/-!
# C11 — the parser is total: every input yields a schema or a renderable error

That no exception escapes is CPython behaviour (Lark's `VisitError`, beartype, `assert`): a
model cannot exhibit it, only predict that none should occur, and the harness checks it on
five malformed streams; in that respect the level stays "partial".  What is proved is about
the *reference* front end: it is total by construction (`Except`), and **every line it cites
for a lexical or a syntax error exists in the source** (`C11_error_lines`): the lexer's
bookkeeping (`lex_lines`) composed with a safety invariant carried through every production of
the parser (`FcpModel/SyntaxLines.lean`: an error's line is the line of a token of the input,
or the running last line, itself a token line).
-/
namespace Fcp
open Syntax Frontend

/-- every token line and every lexical error line is between 1 and the number of lines -/
theorem C11_lexer_lines_partial (src : String) :
    (∀ ts, lex src = .ok ts → ∀ t ∈ ts, 1 ≤ t.line ∧ t.line ≤ 1 + nl src.toList) ∧
    (∀ e, lex src = .error e → 1 ≤ e.line ∧ e.line ≤ 1 + nl src.toList) :=
  lex_lines src

/-- **cited lines exist**: whatever the input text, a lexical or syntax error of the reference
front end cites a line between 1 and the number of lines of that text -/
theorem C11_error_lines (src : String) (e : SynErr) (h : parseText src = .error e) :
    1 ≤ e.line ∧ e.line ≤ 1 + nl src.toList :=
  parseText_lines src e h

/-- and that is the line the error value of the loader carries, together with the file -/
theorem C11_error_value_lines (fs : FS) (fuel : Nat) (path : List String) (src : String) (e : SynErr)
    (h : parseText src = .error e) :
    loadFile fs (fuel + 1) path src = .error [⟨"syntax", e.msg, some (path.getLast?.getD ""), some e.line⟩] ∧
    1 ≤ e.line ∧ e.line ≤ 1 + nl src.toList := by
  refine ⟨by simp [loadFile, h], parseText_lines src e h⟩

/-- the reference front end is total: for every file system, root and fuel it returns a
tree or an error value (a typing fact, recorded as a theorem for the audit) -/
theorem C11_total_partial (fs : FS) (fuel : Nat) (path : List String) (src : String) :
    (∃ t, loadFile fs fuel path src = .ok t) ∨ (∃ e, loadFile fs fuel path src = .error e) := by
  cases h : loadFile fs fuel path src with
  | ok t => exact Or.inl ⟨t, rfl⟩
  | error e => exact Or.inr ⟨e, rfl⟩

/-- a syntax error of a file is reported as an error value citing that file -/
theorem C11_syntax_error_value_partial (fs : FS) (fuel : Nat) (path : List String) (src : String)
    (e : SynErr) (h : parseText src = .error e) :
    loadFile fs (fuel + 1) path src =
      .error [⟨"syntax", e.msg, some (path.getLast?.getD ""), some e.line⟩] := by
  simp [loadFile, h]

end Fcp
