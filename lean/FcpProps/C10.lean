import FcpModel
/-!
# C10 — code generation is gated by verification

The command `GeneratorManager.generate` as an effect on the output directory.  The model is
small; the assurance for this property rests mainly on the per-run comparison of the real
command with it.
-/
namespace Fcp
open Codegen

/-- **reject ⇒ nothing happens**: when the verdict is an error the directory is exactly
what it was and the command returns that error -/
theorem C10_reject {E : Type} (e : E) (plugin : Plugin) (fs : FS) :
    generateCmd (.error e) plugin fs = (fs, .error e) := gate_reject e plugin fs

/-- **accept ⇒ exactly the returned files**: the command succeeds, each returned path holds
exactly its returned contents, every other path is as the plug-in itself left it -/
theorem C10_accept {E : Type} (plugin : Plugin) (fs : FS) (hn : (plugin.files.map (·.1)).Nodup) :
    let r := generateCmd (E := E) (.ok ()) plugin fs
    (r.2 = .ok ()) ∧
    (∀ p c, (p, c) ∈ plugin.files → r.1.get p = some c) ∧
    (∀ q, q ∉ plugin.files.map (·.1) → r.1.get q = (fs.delete (plugin.deletes fs)).get q) :=
  gate_accept plugin fs hn

/-- a plug-in that deletes nothing leaves every unreturned path untouched -/
theorem C10_accept_untouched {E : Type} (files : List (String × String)) (fs : FS) (q : String)
    (hq : q ∉ files.map (·.1)) :
    (generateCmd (E := E) (.ok ()) { deletes := fun _ => [], files := files } fs).1.get q = fs.get q := by
  have := get_writeAll_not_mem files (fs.delete []) q hq
  simp only [generateCmd]
  rw [this]
  simp only [FS.delete, FS.get, List.contains_nil, Bool.not_false]
  congr 1
  induction fs with
  | nil => rfl
  | cons x xs ih => simp [List.filter, ih]

/-! ## the glue the verdict travels through (`result.py`, `maybe.py`: FcpModel/Glue.lean) -/

/-- a rejection stays a rejection, with its payload, through every `Ok`-side combinator between
the check that produced it and the generate command (`map`, `and_then`, `attempt` inside `catch`):
the gate cannot be opened on the way, whatever the payload (0, "" and None are falsy in Python) -/
theorem C10_rejection_travels (e : Glue.Payload) (ops : List Glue.Op) (h : ∀ o ∈ ops, Glue.okSide o = true) :
    Glue.run (.error e) ops = .error e :=
  Glue.run_err_absorbs e ops h

/-- and `attempt` inside `catch` hands a verdict on unchanged -/
theorem C10_catch_attempt (r : Glue.Res) : Glue.step r (.catchAttempt 0) = r := Glue.catch_attempt r

example : Glue.run (.error 0) [.map 5, .andThen 0 1, .catchAttempt 2] = .error 0 := rfl

/-! non-vacuity (`String.endsWith` does not reduce in the kernel, so the clearing rule is
given explicitly here) -/
example : (generateCmd (E := String) (.ok ()) { deletes := fun _ => ["a.h", "b.c"], files := [("a.h", "new")] }
    [("a.h", "old"), ("b.c", "x"), ("notes.txt", "n"), ("sub/x.h", "s")]).1 =
    [("a.h", "new"), ("notes.txt", "n"), ("sub/x.h", "s")] := by decide

end Fcp
