import FcpModel
/-!
# C03 — the generated C++ static codec speaks the canonical wire format

`Cpp.cppEnc` / `Cpp.cppDec` model the generated `Encode` / `Decode` members: the same
composition over the type tree as the template renders, every scalar through
`Buffer::PushWord` (bit loop over a possibly signed carrier) and `Buffer::GetWord`
(bit loop, XOR/subtract sign extension with its 64-bit exception, cast to the carrier).

"Compiles as C++17" is not a statement a model can carry: it is decided on every run by
`g++ -std=c++17` over the headers generated for each sampled schema.
-/
namespace Fcp
open Cpp

/-- **encoder**: for every type and in-range value the generated encoder produces exactly the
canonical wire bytes -/
theorem C03_encode_canonical (t : Ty) (v : Val) (h : wf t v = true) :
    pack (cppEnc t v) = encBytes t v := by
  rw [cppEnc_eq t v h]; rfl

/-- hence the same bytes as the Python codec (composition with C01's refinement) -/
theorem C03_same_as_python (S : Schema) (fuel : Nat) (name : String) (t : Ty) (v : Val)
    (hr : resolve S fuel (.struct name) = some t) (h : wf t v = true) :
    pyEncode S fuel name v = .ok (pack (cppEnc t v)) := by
  rw [cppEnc_eq t v h]; exact pyEncode_refines S fuel name t v hr h

/-- **decoder**: on every supported type the generated decoder *is* the canonical decoder
(for every bit string, not only for encodings) -/
theorem C03_decode_canonical (t : Ty) (h : Widths t = true) (bs : Bits) : cppDec t bs = dec t bs :=
  cppDec_eq t h bs

/-- **round trip** through the generated code, at the byte level (zero padding ignored) -/
theorem C03_roundtrip (t : Ty) (v : Val) (hw : Widths t = true) (h : wf t v = true) :
    (cppDec t (unpack (pack (cppEnc t v)))).map (·.1) = some v := by
  rw [cppDec_eq t hw, cppEnc_eq t v h]
  exact decBytes_encBytes t v h

/-- **carrier**: widths 1..64 map to a standard carrier wide enough to hold them -/
theorem C03_carrier (n : Nat) (h : n ≤ 64) :
    n ≤ carrier n ∧ (carrier n = 8 ∨ carrier n = 16 ∨ carrier n = 32 ∨ carrier n = 64) :=
  carrier_ge n h

/-- the carrier is the *smallest* standard width that fits -/
theorem C03_carrier_least (n c : Nat) (hc : c = 8 ∨ c = 16 ∨ c = 32 ∨ c = 64) (h : n ≤ c) :
    carrier n ≤ c := by
  unfold carrier; rcases hc with rfl | rfl | rfl | rfl <;> (repeat' split) <;> omega

/-- **sign extension**: an `n`-bit field read into a signed carrier yields the two's-complement
value, for every width 1..64 and every carrier that fits -/
theorem C03_sign_extension (n c r : Nat) (h1 : 1 ≤ n) (h2 : n ≤ c) (h3 : c ≤ 64) (hr : r < 2 ^ n) :
    castSigned c (getWord n true r) = ofTwos n r :=
  getWord_signext n c r h1 h2 h3 hr

/-- **enums use their minimal width**: with `b` bits, `max` fits and would not fit in `b-1` -/
theorem C03_enum_minimal (e : Enum) (b : Nat) (h : e.packedSize = some b) (hm : 2 ≤ e.maxValue) :
    (2 : Int) ^ (b - 1) ≤ e.maxValue ∧ e.maxValue < (2 : Int) ^ b :=
  enumBits_minimal e b h hm

/-! ## the rpc layer (FcpModel/Rpc.lean = `generate_rpc`) -/

/-- the wrapper structs and id enums the C++ generator derives from the services cannot change
the wire format of a user type: every type that resolves in the schema resolves to the same
closed type in the extended schema the headers are rendered from -/
theorem C03_rpc_keeps_user_types (S S' : Schema) (h : Rpc.rpc S = some S') (fuel : Nat) (t : STy) (ty : Ty)
    (hr : resolve S fuel t = some ty) : resolve S' fuel t = some ty :=
  Rpc.rpc_resolve S S' h fuel t ty hr

/-- **accepted ⇒ the rpc layer generates**: a schema that passes the general checks and the
C++ plug-in's service check (and has at least one method per service, the grammar's rule) makes
`generate_rpc` return (before the repairs `35b0f7d` it raised for ids above 255 and for payloads
that are no declared structs, although the schema was accepted) -/
theorem C03_accepted_generates (fuel : Nat) (S : Schema) (h : verifyModel .cpp fuel S = .ok ())
    (hm : ∀ sv ∈ S.services, sv.methods ≠ []) : (Rpc.rpc S).isSome :=
  Rpc.rpc_total S ((verify_iff_cpp fuel S).mp h).2.2 hm

/-- non-vacuity: one service, one struct used as input and as output, both wrappers present -/
def C03_rpcS : Schema := {
  structs := [{ name := "A", fields := [{ name := "x", id := 0, ty := .u 8 }] }],
  services := [{ name := "MotorControl", id := 1, methods := [⟨"m", 0, "A", "A"⟩] }] }
example : (verifyModel .cpp 5 C03_rpcS).toOption = some () := by decide
example : ((Rpc.rpc C03_rpcS).map fun S' => (S'.structs.map (·.name), S'.enums.map (·.name))) =
    some (["A", "AInput", "AOutput"], ["ServiceId", "MotorControlMethodId"]) := by decide

/-! non-vacuity: `struct { a: i3, b: u5, c: [i7,2]? }` with negative values -/
def C03_t : Ty := .field "a" 0 (.sint 3) (.field "b" 1 (.uint 5) (.field "c" 2 (.opt (.arr (.sint 7) 2)) .unit))
def C03_v : Val := .cons (.int (-4)) (.cons (.int 21) (.cons (.some (.cons (.int (-64)) (.cons (.int 63) .nil))) .nil))
example : wf C03_t C03_v = true ∧ Widths C03_t = true := by decide
example : pack (cppEnc C03_t C03_v) = [172, 1, 192, 31] := by decide
example : castSigned 8 (getWord 3 true 4) = -4 ∧ castSigned 64 (getWord 64 true (2^63)) = -(2^63 : Int) := by decide
example : carrier 1 = 8 ∧ carrier 9 = 16 ∧ carrier 17 = 32 ∧ carrier 33 = 64 ∧ carrier 64 = 64 := by decide

end Fcp
