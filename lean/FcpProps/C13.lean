import FcpModel
/-!
# C13 — the schema loaded at run time from reflection behaves like the compiled one

Three links.  (1) the reflection binary carries the schema losslessly (C12's theorems:
`reflect` then `unchain` gives back every struct, field, type chain and enum), (2) the
run-time decoder walks the same type chain with one shared bit cursor, (3) the run-time
encoder writes into one shared buffer, every scalar through `PushWord` on a 64-bit carrier.

(2) and (3) are equalities with the generated codec for every type.  Until the repair
recorded in known_findings.json (`dynamic-encode-not-bit-packed`, fixed) the encoder padded
every piece to whole bytes; that behaviour is kept as `Cpp.oldDynEnc` with the counterexample
that witnessed the defect.
-/
namespace Fcp
open Cpp

/-- **decode, full**: the run-time decoder and the static decoder agree on every bit string,
for every supported type (signed negatives, sub-byte fields and every container included) -/
theorem C13_decode_same (t : Ty) (h : Widths t = true) (bs : Bits) : dynDec t bs = cppDec t bs := by
  rw [dynDec_eq t h, cppDec_eq t h]

/-- **encode, full**: the run-time encoder produces the bytes of the generated encoder, hence
the canonical bytes, for every type and every in-range value (sub-byte fields, signed
negatives and every container kind included) -/
theorem C13_encode_same (t : Ty) (v : Val) : pack (dynEnc t v) = pack (cppEnc t v) := by
  rw [dynEnc_eq_cppEnc]

theorem C13_encode_canonical (t : Ty) (v : Val) (h : wf t v = true) : pack (dynEnc t v) = encBytes t v := by
  rw [dynEnc_eq_cppEnc, cppEnc_eq t v h]; rfl

/-- the repaired defect, for the record: before the fix `struct { a: u3, b: u5 }` with
`{a: 5, b: 1}` encoded as `05 01` at run time and `0d` statically -/
theorem C13_old_encoder_counterexample :
    let t : Ty := .field "a" 0 (.uint 3) (.field "b" 1 (.uint 5) .unit)
    let v : Val := .cons (.int 5) (.cons (.int 1) .nil)
    wf t v = true ∧ pack (cppEnc t v) = [13] ∧ oldDynEnc t v = [5, 1] ∧ pack (dynEnc t v) = [13] := by decide

/-- enum width: the run-time formula `max(1, ⌈log₂(max+1)⌉)` is the static width -/
theorem C13_enum_width (m b : Nat) (hm : 1 ≤ m) (hb : 1 ≤ b) (h1 : 2 ^ (b - 1) < m + 1) (h2 : m + 1 ≤ 2 ^ b) :
    b = Nat.log2 m + 1 := ceilLog_unique m b hm hb h1 h2

/-- encode-then-decode through the run-time codec is the identity, for every supported type -/
theorem C13_dynamic_roundtrip (t : Ty) (v : Val) (hw : Widths t = true) (h : wf t v = true) :
    (dynDec t (unpack (pack (dynEnc t v)))).map (·.1) = some v := by
  rw [dynDec_eq t hw, dynEnc_eq_cppEnc, cppEnc_eq t v h]
  exact decBytes_encBytes t v h

/-! non-vacuity: signed negatives in sub-byte fields, nested containers -/
def C13_t : Ty := .field "a" 0 (.sint 3) (.field "b" 1 (.dyn (.opt (.sint 5))) .unit)
def C13_v : Val := .cons (.int (-4)) (.cons (.cons (.some (.int (-2))) (.cons .none .nil)) .nil)
example : wf C13_t C13_v = true ∧ Widths C13_t = true ∧ ByteGranular C13_t = false := by decide
example : pack (dynEnc C13_t C13_v) = [20, 0, 0, 0, 8, 240, 0] := by decide

end Fcp
