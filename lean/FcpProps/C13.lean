import FcpModel
/-!
# C13 — the schema loaded at run time from reflection behaves like the compiled one

Three links.  (1) the reflection binary carries the schema losslessly (C12's theorems:
`reflect` then `unchain` gives back every struct, field, type chain and enum), (2) the
run-time decoder walks the same type chain with one shared bit cursor, (3) the run-time
encoder encodes every piece into a fresh buffer and appends whole bytes.

(2) holds for every type.  (3) equals the static encoder exactly on byte-granular types and
differs otherwise: that is the recorded finding `dynamic-encode-not-bit-packed`, proved
below as a counterexample, so the encode half is `…_partial`.
-/
namespace Fcp
open Cpp

/-- **decode, full**: the run-time decoder and the static decoder agree on every bit string,
for every supported type (signed negatives, sub-byte fields and every container included) -/
theorem C13_decode_same (t : Ty) (h : Widths t = true) (bs : Bits) : dynDec t bs = cppDec t bs := by
  rw [dynDec_eq t h, cppDec_eq t h]

/-- **encode, partial**: on byte-granular types the run-time encoder produces the static
(= canonical) bytes for every in-range value.  Full statement (all types) is false of the
current code: `C13_encode_counterexample`. -/
theorem C13_encode_same_partial (t : Ty) (v : Val) (hg : ByteGranular t = true) (h : wf t v = true) :
    dynEnc t v = pack (cppEnc t v) := by
  rw [cppEnc_eq t v h]; exact (dynEnc_eq t v hg h).1

/-- the recorded finding: `struct { a: u3, b: u5 }` with `{a: 5, b: 1}` — static `0d`,
run-time `05 01` -/
theorem C13_encode_counterexample :
    let t : Ty := .field "a" 0 (.uint 3) (.field "b" 1 (.uint 5) .unit)
    let v : Val := .cons (.int 5) (.cons (.int 1) .nil)
    wf t v = true ∧ pack (cppEnc t v) = [13] ∧ dynEnc t v = [5, 1] := by decide

/-- enum width: the run-time formula `max(1, ⌈log₂(max+1)⌉)` is the static width -/
theorem C13_enum_width (m b : Nat) (hm : 1 ≤ m) (hb : 1 ≤ b) (h1 : 2 ^ (b - 1) < m + 1) (h2 : m + 1 ≤ 2 ^ b) :
    b = Nat.log2 m + 1 := ceilLog_unique m b hm hb h1 h2

/-- on byte-granular types encode-then-decode through the run-time codec is the identity -/
theorem C13_dynamic_roundtrip_partial (t : Ty) (v : Val) (hw : Widths t = true) (hg : ByteGranular t = true)
    (h : wf t v = true) : (dynDec t (unpack (dynEnc t v))).map (·.1) = some v := by
  rw [dynDec_eq t hw, (dynEnc_eq t v hg h).1]
  exact decBytes_encBytes t v h

/-! non-vacuity: signed negatives in byte-wide fields, nested containers -/
def C13_t : Ty := .field "a" 0 (.sint 8) (.field "b" 1 (.dyn (.opt (.sint 16))) .unit)
def C13_v : Val := .cons (.int (-128)) (.cons (.cons (.some (.int (-2))) (.cons .none .nil)) .nil)
example : wf C13_t C13_v = true ∧ Widths C13_t = true ∧ ByteGranular C13_t = true := by decide
example : dynEnc C13_t C13_v = [128, 2, 0, 0, 0, 1, 254, 255, 0] := by decide

end Fcp
