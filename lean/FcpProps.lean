import FcpProps.C01
import FcpProps.C02
import FcpProps.C04
import FcpProps.C09
import FcpProps.C16
import FcpProps.C19
