import FcpProps.C01
