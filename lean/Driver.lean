import FcpModel
def main : IO Unit := pure ()
