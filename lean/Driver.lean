import FcpModel
open Lean Fcp

/-! Line protocol: one JSON case per line on stdin, one JSON answer per line on stdout. -/

def exceptJson {α} (f : α → Json) : Except PyErr α → Json
  | .ok a => Json.mkObj [("ok", f a)]
  | .error .overrun => Json.mkObj [("err", "overrun")]
  | .error .other => Json.mkObj [("err", "other")]

def getFuel (j : Json) : Nat :=
  match j.getObjValAs? Nat "fuel" with
  | .ok n => n
  | .error _ => 200

/-- codec: everything about one (schema, struct) and a list of items, each with a
`value` and/or `bytes` -/
def codecItem (S : Schema) (name : String) (fuel : Nat) (ty : Option Ty) (j : Json) :
    Except String Json := do
  let mut out : List (String × Json) := [("resolved", Json.bool ty.isSome)]
  match j.getObjVal? "value" with
  | .ok vj =>
    let v ← J.val vj
    match ty with
    | some t =>
      out := out ++ [("wf", Json.bool (wf t v)), ("spec_bytes", J.natsToJson (encBytes t v)),
                     ("spec_bits", (enc t v).length),
                     ("cpp_bytes", J.natsToJson (pack (Cpp.cppEnc t v))),
                     ("dyn_bytes", J.natsToJson (pack (Cpp.dynEnc t v))),
                     ("byte_granular", Json.bool (Cpp.ByteGranular t)), ("widths", Json.bool (Cpp.Widths t))]
    | none => pure ()
    -- the transliterated `_Buffer` grows a byte list bit by bit (quadratic): callers that only need the specification and
    -- the C++ models (very long arrays) say so
    if (j.getObjVal? "no_py").toOption.isNone then
      out := out ++ [("py_enc", exceptJson J.natsToJson (pyEncode S fuel name v))]
  | .error _ => pure ()
  match j.getObjVal? "bytes" with
  | .ok bj =>
    let bs ← J.natList bj
    match ty with
    | some t =>
      let vj (o : Option (Val × Bits)) : Json :=
        match o with | some p => J.valToJson p.1 | none => Json.mkObj [("none", true)]
      out := out ++ [("spec_dec", match decBytes t bs with | some v => J.valToJson v | none => Json.mkObj [("none", true)]),
                     ("cpp_dec", vj (Cpp.cppDec t (unpack bs))), ("dyn_dec", vj (Cpp.dynDec t (unpack bs))),
                     ("reads", reads t (unpack bs)), ("weight", weight t), ("pos_width", Json.bool (PosWidth t))]
    | none => pure ()
    if (j.getObjVal? "no_py").toOption.isNone then
      out := out ++ [("py_dec", exceptJson J.valToJson (pyDecode S fuel name bs))]
  | .error _ => pure ()
  return Json.mkObj out

def opCodec (j : Json) : Except String Json := do
  let S ← J.schema (← j.getObjVal? "schema")
  let name ← j.getObjValAs? String "struct"
  let fuel := getFuel j
  let ty := resolve S fuel (.struct name)
  match j.getObjValAs? (Array Json) "items" with
  | .ok items =>
    let outs ← items.mapM (codecItem S name fuel ty)
    return Json.mkObj [("items", Json.arr outs)]
  | .error _ => codecItem S name fuel ty j

/-- `_Buffer` operation sequences -/
def opBuf (j : Json) : Except String Json := do
  let ops ← j.getObjValAs? (Array Json) "ops"
  let mut b : Buf := {}
  let mut outs : Array Json := #[]
  for o in ops do
    let k ← o.getObjValAs? String "k"
    match k with
    | "push_word" =>
      let w ← o.getObjValAs? Int "w"
      let n ← o.getObjValAs? Nat "n"
      match b.pushWord w n with
      | .ok b' => b := b'; outs := outs.push "ok"
      | .error _ => outs := outs.push "err"
    | "read_word" =>
      let n ← o.getObjValAs? Nat "n"
      match b.readWord n with
      | .ok (w, b') => b := b'; outs := outs.push (Json.num ⟨w, 0⟩)
      | .error _ => outs := outs.push "overrun"
    | "push_bytes" =>
      b := b.pushBytes (← J.natList (← o.getObjVal? "bytes")); outs := outs.push "ok"
    | "seek" =>
      b := { b with bitaddr := ← o.getObjValAs? Nat "addr" }; outs := outs.push "ok"
    | _ => throw s!"bad buf op {k}"
  return Json.mkObj [("outs", Json.arr outs), ("buffer", J.natsToJson b.buffer), ("bitaddr", b.bitaddr)]

def xvalToJson : XVal → Json
  | .int i => Json.num ⟨i, 0⟩
  | .flt s => Json.mkObj [("f", s)]
  | .str s => Json.str s
  | .arr l => Json.arr (l.map xvalToJson).toArray

def leafToJson (l : Leaf) : Json :=
  Json.mkObj [("name", l.name), ("field", l.field), ("start", l.start), ("len", l.len),
    ("endian", l.endian), ("unit", match l.unit with | some u => Json.str u | none => Json.null),
    ("opts", Json.arr (l.opts.map fun (k, v) => Json.arr #[Json.str k, xvalToJson v]).toArray)]

/-- layout: `generate()` for a list of impl indices (a call history on one encoder) -/
def opLayout (j : Json) : Except String Json := do
  let S ← J.schema (← j.getObjVal? "schema")
  let unroll ← j.getObjValAs? Bool "unroll"
  let calls ← j.getObjValAs? (Array Nat) "calls"
  let fuel := getFuel j
  let mut e : Encoder := {}
  let mut outs : Array Json := #[]
  for ix in calls do
    match S.impls[ix]? with
    | none => throw "bad impl index"
    | some impl =>
      let (e', r) := e.generate S unroll fuel impl
      e := e'
      outs := outs.push (match r with
        | some ls => Json.mkObj [("leaves", Json.arr (ls.map leafToJson).toArray)]
        | none => Json.mkObj [("err", "raise")])
  return Json.mkObj [("calls", Json.arr outs)]

def ruleName : Rule → String
  | .emptyStruct => "emptyStruct" | .dupField => "dupField" | .dupEnumName => "dupEnumName"
  | .dupEnumValue => "dupEnumValue" | .dupImpl => "dupImpl" | .implNoStruct => "implNoStruct"
  | .dupCanId => "dupCanId" | .implTooBig => "implTooBig" | .dupType => "dupType"
  | .missingService => "missingService" | .serviceRpc => "serviceRpc" | .intWidth => "intWidth"

def opVerify (j : Json) : Except String Json := do
  let S ← J.schema (← j.getObjVal? "schema")
  let cs ← match (← j.getObjValAs? String "set") with
    | "general" => pure CheckSet.general
    | "dbc" => pure CheckSet.dbc
    | "can_c" => pure CheckSet.canC
    | "cpp" => pure CheckSet.cpp
    | s => throw s!"bad check set {s}"
  match verifyModel cs (getFuel j) S with
  | .ok () => return Json.mkObj [("ok", true)]
  | .error r => return Json.mkObj [("ok", false), ("rule", ruleName r)]

def optStrJson : Option String → Json
  | some s => Json.str s
  | none => Json.null

def dbcSignalToJson (s : DbcSignal) : Json :=
  Json.mkObj [("name", s.name), ("start", s.start), ("len", s.length), ("big", s.bigEndian),
    ("signed", s.signed), ("float", s.isFloat), ("unit", optStrJson s.unit), ("is_mux", s.isMux),
    ("mux_ids", match s.muxIds with | some l => Json.arr (l.map (fun (n : Nat) => Json.num ⟨(n : Int), 0⟩)).toArray | none => Json.null),
    ("mux_signal", optStrJson s.muxSignal)]

def dbcErrName : DbcErr → String
  | .noLayout => "noLayout" | .empty => "empty" | .tooBig => "tooBig" | .noId => "noId"

/-- dbc: expected messages per bus; optionally frames packed from values (`pack`: list of
{impl index, values}) -/
def opDbc (j : Json) : Except String Json := do
  let S ← J.schema (← j.getObjVal? "schema")
  let fuel := getFuel j
  let mut out : List (String × Json) := []
  match expectedDbc S fuel with
  | .error e => out := [("err", Json.str (dbcErrName e))]
  | .ok buses =>
    out := [("buses", Json.arr (buses.map fun (b, ms) =>
      Json.mkObj [("bus", b), ("messages", Json.arr (ms.map fun m =>
        Json.mkObj [("id", Json.num ⟨m.frameId, 0⟩), ("name", m.name), ("dlc", m.dlc),
          ("signals", Json.arr (m.signals.map dbcSignalToJson).toArray)]).toArray)]).toArray)]
  match j.getObjValAs? (Array Json) "pack" with
  | .ok items =>
    let mut frames : Array Json := #[]
    for it in items do
      let ix ← it.getObjValAs? Nat "impl"
      let vs ← it.getObjValAs? (Array Int) "values"
      match S.impls[ix]? with
      | none => throw "bad impl index"
      | some impl =>
        match generate S true fuel impl with
        | none => frames := frames.push Json.null
        | some (ls, _) => frames := frames.push (J.natsToJson (pack (packLeavesE ls vs.toList)))
    out := out ++ [("frames", Json.arr frames)]
  | .error _ => pure ()
  return Json.mkObj out

def fsOfJson (j : Json) : Except String Codegen.FS := do
  let a ← j.getArr?
  a.toList.mapM fun p => do
    let q ← p.getArr?
    if h : q.size = 2 then return (← q[0].getStr?, ← q[1].getStr?) else throw "bad fs pair"

/-- gate: `GeneratorManager.generate` on an abstract file system -/
def opGate (j : Json) : Except String Json := do
  let pre ← fsOfJson (← j.getObjVal? "pre")
  let files ← fsOfJson (← j.getObjVal? "files")
  let okv ← j.getObjValAs? Bool "verdict_ok"
  let clears ← j.getObjValAs? Bool "clears_ch"
  let plugin : Codegen.Plugin := { deletes := if clears then Codegen.clearsCH else fun _ => [], files := files }
  let verdict : Except String Unit := if okv then .ok () else .error "rejected"
  let (fs, r) := Codegen.generateCmd verdict plugin pre
  let dedup := fs.foldl (fun (acc : List (String × String)) e => if acc.any (·.1 == e.1) then acc else acc ++ [e]) []
  return Json.mkObj [("result_ok", Json.bool r.isOk),
    ("fs", Json.arr (dedup.map fun (p, c) => Json.arr #[Json.str p, Json.str c]).toArray)]

/-- canc: encode/decode of value vectors for one CAN binding, per the C runtime model -/
def opCanC (j : Json) : Except String Json := do
  let S ← J.schema (← j.getObjVal? "schema")
  let fuel := getFuel j
  let ix ← j.getObjValAs? Nat "impl"
  let vals ← j.getObjValAs? (Array (Array Int)) "values"
  match S.impls[ix]? with
  | none => throw "bad impl index"
  | some impl =>
    match generate S true fuel impl with
    | none => return Json.mkObj [("err", "noLayout")]
    | some (ls, e) =>
      let id := match impl.fields.lookup "id" with | some (.int n) => n | _ => -1
      let outs := vals.map fun vs =>
        let fr := CanC.encodeMsg id ls e vs.toList
        let dec := CanC.decodeWord (CanC.encodeWord ls vs.toList) ls
        Json.mkObj [("id", Json.num ⟨fr.id, 0⟩), ("dlc", fr.dlc), ("data", J.natsToJson fr.data),
                    ("decoded", Json.arr (dec.map fun (i : Int) => Json.num ⟨i, 0⟩).toArray),
                    ("packing", J.natsToJson (pack (packLeaves ls vs.toList)))]
      return Json.mkObj [("bits", e), ("names", Json.arr (ls.map fun l => Json.str (replaceColons l.name)).toArray),
        ("frames", Json.arr outs)]

partial def styToJson : STy → Json
  | .u n => Json.mkObj [("name", s!"u{n}"), ("type", "unsigned")]
  | .i n => Json.mkObj [("name", s!"i{n}"), ("type", "signed")]
  | .f32 => Json.mkObj [("name", "f32"), ("type", "float")]
  | .f64 => Json.mkObj [("name", "f64"), ("type", "double")]
  | .str => Json.mkObj [("type", "str")]
  | .enum n => Json.mkObj [("name", n), ("type", "Enum")]
  | .struct n => Json.mkObj [("name", n), ("type", "Struct")]
  | .arr t n => Json.mkObj [("underlying_type", styToJson t), ("size", n), ("type", "Array")]
  | .dyn t => Json.mkObj [("underlying_type", styToJson t), ("type", "DynamicArray")]
  | .opt t => Json.mkObj [("underlying_type", styToJson t), ("type", "Optional")]

def pairsToJson (kvs : List (String × XVal)) : Json :=
  Json.arr (kvs.map fun (k, v) => Json.arr #[Json.str k, xvalToJson v]).toArray

def treeToJson (t : Frontend.Tree) : Json :=
  Json.mkObj [
    ("structs", Json.arr (t.structs.map fun s => Json.mkObj [("name", s.name),
      ("fields", Json.arr (s.fields.map fun f => Json.mkObj ([("name", Json.str f.name),
        ("field_id", Json.num ⟨f.id, 0⟩), ("type", styToJson f.ty)]
        ++ (match f.unit with | some u => [("unit", Json.str u)] | none => [])
        ++ (match f.min with | some u => [("min_value", Json.str u)] | none => [])
        ++ (match f.max with | some u => [("max_value", Json.str u)] | none => []))).toArray)]).toArray),
    ("enums", Json.arr (t.enums.map fun e => Json.mkObj [("name", e.name),
      ("enumeration", Json.arr (e.enumeration.map fun x => Json.mkObj [("name", x.name), ("value", Json.num ⟨x.value, 0⟩)]).toArray)]).toArray),
    ("impls", Json.arr (t.impls.map fun i => Json.mkObj [("name", i.name), ("protocol", i.protocol), ("type", i.type),
      ("fields", pairsToJson i.fields),
      ("signals", Json.arr (i.signals.map fun sb => Json.mkObj [("name", sb.name), ("fields", pairsToJson sb.fields)]).toArray)]).toArray),
    ("services", Json.arr (t.services.map fun s => Json.mkObj [("name", s.name), ("id", Json.num ⟨s.id, 0⟩),
      ("methods", Json.arr (s.methods.map fun m => Json.mkObj [("name", m.name), ("id", Json.num ⟨m.id, 0⟩),
        ("input", m.input), ("output", m.output)]).toArray)]).toArray),
    ("devices", Json.arr (t.devices.map fun d => Json.mkObj [("name", d.name), ("fields", pairsToJson d.fields)]).toArray)]

/-- parse: files = [[path components…], contents] pairs, root = path components -/
def opParse (j : Json) : Except String Json := do
  let fa ← j.getObjValAs? (Array Json) "files"
  let fs : Frontend.FS ← fa.toList.mapM fun p => do
    let q ← p.getArr?
    if h : q.size = 2 then
      let comps ← q[0].getArr?
      return ((← comps.toList.mapM (·.getStr?)), ← q[1].getStr?)
    else throw "bad file pair"
  let root ← (← j.getObjValAs? (Array String) "root") |> pure
  match Frontend.load fs root.toList with
  | .ok t => return Json.mkObj [("ok", treeToJson t)]
  | .error e => return Json.mkObj [("err", Json.arr (e.map fun m => Json.mkObj [("kind", m.kind), ("text", m.text),
      ("file", optStrJson m.file), ("line", match m.line with | some l => Json.num ⟨(l : Int), 0⟩ | none => Json.null)]).toArray)]

namespace RJ
open Refl

def str (j : Json) : Except String Refl.Str := J.natList j

def optStr (j : Json) (k : String) : Except String (Option Refl.Str) :=
  match j.getObjVal? k with
  | .ok .null => pure none
  | .ok v => do return some (← str v)
  | .error _ => pure none

def optNat (j : Json) (k : String) : Except String (Option Nat) :=
  match j.getObjVal? k with
  | .ok .null => pure none
  | .ok v => do return some (← v.getNat?)
  | .error _ => pure none

def pos (j : Json) (k : String) : Except String (Option RMeta) :=
  match j.getObjVal? k with
  | .ok .null => pure none
  | .error _ => pure none
  | .ok m => do
    return some { line := ← m.getObjValAs? Int "line", endLine := ← m.getObjValAs? Int "end_line",
                  column := ← m.getObjValAs? Int "column", endColumn := ← m.getObjValAs? Int "end_column",
                  startPos := ← m.getObjValAs? Int "start_pos", endPos := ← m.getObjValAs? Int "end_pos",
                  filename := ← str (← m.getObjVal? "filename") }

partial def rty (j : Json) : Except String RTy := do
  match (← j.getObjValAs? String "k") with
  | "u" => return .u (← j.getObjValAs? Nat "n")
  | "i" => return .i (← j.getObjValAs? Nat "n")
  | "f32" => return .f32
  | "f64" => return .f64
  | "str" => return .str
  | "enum" => return .enum (← str (← j.getObjVal? "name"))
  | "struct" => return .struct (← str (← j.getObjVal? "name"))
  | "arr" => return .arr (← rty (← j.getObjVal? "t")) (← j.getObjValAs? Nat "n")
  | "dyn" => return .dyn (← rty (← j.getObjVal? "t"))
  | "opt" => return .opt (← rty (← j.getObjVal? "t"))
  | k => throw s!"bad rty {k}"

partial def xv (j : Json) : Except String XV :=
  match j with
  | .num n => .ok (.int n.mantissa)
  | .arr a => do
    let vs ← a.toList.mapM xv
    return .arr (vs.foldr XV.cons XV.nil)
  | .obj _ => do
    match j.getObjVal? "f" with
    | .ok f => return .flt (← str f)
    | .error _ => return .str (← str (← j.getObjVal? "s"))
  | _ => .error "bad xv"

def dict (j : Json) : Except String (List (Refl.Str × XV)) := do
  let a ← j.getArr?
  a.toList.mapM fun p => do
    let q ← p.getArr?
    if h : q.size = 2 then return (← str q[0], ← xv q[1]) else throw "bad dict pair"

def schema (j : Json) : Except String RSchema := do
  let structs ← (J.arrOr j "structs").toList.mapM fun s => do
    let fs ← (J.arrOr s "fields").toList.mapM fun f => do
      return ({ name := ← str (← f.getObjVal? "name"), id := ← f.getObjValAs? Int "id",
                ty := ← rty (← f.getObjVal? "ty"), unit := ← optStr f "unit", min := ← optNat f "min",
                max := ← optNat f "max", pos := ← pos f "pos" } : RField)
    return ({ name := ← str (← s.getObjVal? "name"), fields := fs, pos := ← pos s "pos" } : RStruct)
  let enums ← (J.arrOr j "enums").toList.mapM fun e => do
    let items ← (J.arrOr e "items").toList.mapM fun x => do
      return ({ name := ← str (← x.getObjVal? "name"), value := ← x.getObjValAs? Int "value", pos := ← pos x "pos" } : REnumerator)
    return ({ name := ← str (← e.getObjVal? "name"), items := items, pos := ← pos e "pos" } : REnum)
  let impls ← (J.arrOr j "impls").toList.mapM fun i => do
    let sigs ← (J.arrOr i "signals").toList.mapM fun sb => do
      return ({ name := ← str (← sb.getObjVal? "name"), fields := ← dict (← sb.getObjVal? "fields"), pos := ← pos sb "pos" } : RSignal)
    return ({ name := ← str (← i.getObjVal? "name"), protocol := ← str (← i.getObjVal? "protocol"),
              type := ← str (← i.getObjVal? "type"), fields := ← dict (← i.getObjVal? "fields"),
              signals := sigs, pos := ← pos i "pos" } : RImpl)
  let services ← (J.arrOr j "services").toList.mapM fun s => do
    let ms ← (J.arrOr s "methods").toList.mapM fun m => do
      return ({ name := ← str (← m.getObjVal? "name"), id := ← m.getObjValAs? Int "id",
                input := ← str (← m.getObjVal? "input"), output := ← str (← m.getObjVal? "output"),
                pos := ← pos m "pos" } : RMethod)
    return ({ name := ← str (← s.getObjVal? "name"), id := ← s.getObjValAs? Int "id", methods := ms, pos := ← pos s "pos" } : RService)
  return { version := ← j.getObjValAs? Int "version", structs := structs, enums := enums, impls := impls, services := services }

end RJ

/-- reflect: the reflection record of a schema, its well-formedness for `reflTy`, its canonical bytes -/
def opReflect (j : Json) : Except String Json := do
  let S ← RJ.schema (← j.getObjVal? "schema")
  let v := Refl.reflect S
  let ok := wf Refl.reflTy v
  return Json.mkObj [("record", J.valToJson v), ("wf", ok),
    ("bytes", if ok then J.natsToJson (encBytes Refl.reflTy v) else Json.null)]

/-- cpp: carrier widths, enum widths and `GetWord` + cast on explicit words -/
def opCpp (j : Json) : Except String Json := do
  let ns ← J.natList (← j.getObjVal? "carrier")
  let ms ← J.natList (← j.getObjVal? "enum_max")
  let gw ← j.getObjValAs? (Array Json) "getword"
  let gws ← gw.toList.mapM fun g => do
    let l ← J.natList g
    match l with
    | [n, c, r] => pure (Json.num ⟨Cpp.castSigned c (Cpp.getWord n true r), 0⟩)
    | _ => throw "getword needs [n, c, r]"
  let bits (m : Nat) : Json :=
    match (Enum.packedSize ⟨"E", [⟨"A", 0⟩, ⟨"B", (m : Int)⟩]⟩) with
    | some b => Json.num ⟨(b : Int), 0⟩
    | none => Json.null
  return Json.mkObj [("carrier", J.natsToJson (ns.map Cpp.carrier)), ("enum_bits", Json.arr (ms.map bits).toArray),
    ("getword", Json.arr gws.toArray)]

/-- frame: the CAN wrapper over a binding table -/
def opFrame (j : Json) : Except String Json := do
  let S ← J.schema (← j.getObjVal? "schema")
  let fuel := getFuel j
  let bj ← j.getObjValAs? (Array Json) "bindings"
  let bs ← bj.toList.mapM fun b => do
    let name ← b.getObjValAs? String "name"
    let id ← b.getObjValAs? Nat "id"
    let bus ← J.natList (← b.getObjVal? "bus")
    match resolve S fuel (.struct name) with
    | some t => pure ({ name := name, id := id, bus := bus, ty := t } : Cpp.Binding)
    | none => throw s!"binding {name} does not resolve"
  let items ← j.getObjValAs? (Array Json) "items"
  let outs ← items.mapM fun it => do
    match it.getObjVal? "encode" with
    | .ok e =>
      let name ← e.getObjValAs? String "name"
      let v ← J.val (← e.getObjVal? "value")
      match Cpp.encodeFrame bs name v with
      | some f => pure (Json.mkObj [("bus", J.natsToJson f.bus), ("sid", f.sid), ("dlc", f.dlc), ("data", J.natsToJson f.data)])
      | none => pure (Json.mkObj [("none", true)])
    | .error _ =>
      let d ← it.getObjVal? "decode"
      let f : Cpp.Frame := { bus := ← J.natList (← d.getObjVal? "bus"), sid := ← d.getObjValAs? Nat "sid",
                             dlc := ← d.getObjValAs? Nat "dlc", data := ← J.natList (← d.getObjVal? "data") }
      match Cpp.decodeFrame bs f with
      | some (n, v) => pure (Json.mkObj [("name", n), ("value", J.valToJson v)])
      | none =>
        -- told apart for the harness: no binding has this (id, bus) / a binding has it but the data is not an
        -- encoding of one of its values (a foreign or truncated payload: outside the property)
        match bs.find? (fun b => b.id == f.sid && b.tag == Cpp.busName f.bus) with
        | some b => pure (Json.mkObj [("none", true), ("undecodable_for", b.name)])
        | none => pure (Json.mkObj [("none", true)])
  return Json.mkObj [("items", Json.arr outs)]

def opSched (j : Json) : Except String Json := do
  let periods ← j.getObjValAs? (Array Int) "periods"
  let times ← j.getObjValAs? (Array Nat) "times"
  let ps := periods.toList
  let tr := Sched.run ps (Sched.init ps) times.toList
  return Json.mkObj [("sent", Json.arr (tr.map fun row => Json.arr (row.map Json.bool).toArray).toArray)]

/-- `Logger.error` on a registry of sources and an error chain (FcpModel/Render.lean) -/
def opRender (j : Json) : Except String Json := do
  let sa ← j.getObjValAs? (Array Json) "sources"
  let srcs : Render.Sources ← sa.toList.mapM fun p => do
    let q ← p.getArr?
    if h : q.size = 2 then
      return ((← q[0].getStr?), (← q[1].getStr?).toList)
    else throw "bad source pair"
  let ma ← j.getObjValAs? (Array Json) "msgs"
  let ms : List Render.RMsg ← ma.toList.mapM fun m => do
    let text ← m.getObjValAs? String "text"
    match m.getObjVal? "cite" with
    | .ok .null => pure { text := text.toList }
    | .error _ => pure { text := text.toList }
    | .ok c =>
      pure { text := text.toList,
             cite := some ⟨← c.getObjValAs? String "full", ← c.getObjValAs? String "base", ← c.getObjValAs? Nat "line"⟩ }
  match Render.render srcs true ms with
  | some out => return Json.mkObj [("out", Json.str (String.ofList out))]
  | none => return Json.mkObj [("none", true)]

/-- `generate_rpc`: what the rpc layer of the C++ generator adds to a schema (FcpModel/Rpc.lean) -/
def opRpc (j : Json) : Except String Json := do
  let S ← J.schema (← j.getObjVal? "schema")
  match Rpc.rpc S with
  | none => return Json.mkObj [("none", true)]
  | some S' =>
    let tyJ : STy → Json
      | .enum n => Json.arr #["enum", n]
      | .struct n => Json.arr #["struct", n]
      | _ => Json.arr #["other"]
    let structs := (S'.structs.drop S.structs.length).map fun st =>
      Json.mkObj [("name", st.name), ("fields", Json.arr (st.fields.map fun f =>
        Json.arr #[Json.str f.name, Json.num ⟨f.id, 0⟩, tyJ f.ty]).toArray)]
    let enums := (S'.enums.drop S.enums.length).map fun e =>
      Json.mkObj [("name", e.name), ("items", Json.arr (e.enumeration.map fun x =>
        Json.arr #[Json.str x.name, Json.num ⟨x.value, 0⟩]).toArray)]
    let impls := (S'.impls.drop S.impls.length).map fun i => Json.arr #[Json.str i.name, Json.str i.protocol, Json.str i.type]
    return Json.mkObj [("structs", Json.arr structs.toArray), ("enums", Json.arr enums.toArray), ("impls", Json.arr impls.toArray)]

/-- pipelines over one `Result` (FcpModel/Glue.lean) -/
def opGlue (j : Json) : Except String Json := do
  let items ← j.getObjValAs? (Array Json) "items"
  let outs ← items.mapM fun it => do
    let st ← it.getObjValAs? (Array Json) "start"
    let v ← (st[1]?.getD Json.null).getInt?
    let r0 : Glue.Res := if (st[0]?.getD Json.null) == Json.str "ok" then .ok v else .error v
    let oa ← it.getObjValAs? (Array Json) "ops"
    let ops ← oa.toList.mapM fun o => do
      let a ← o.getArr?
      let name ← (a[0]?.getD Json.null).getStr?
      let x ← (a[1]?.getD (Json.num 0)).getInt?
      let y ← (a[2]?.getD (Json.num 0)).getInt?
      match name with
      | "map" => pure (Glue.Op.map x)
      | "map_err" => pure (Glue.Op.mapErr x)
      | "and_then" => pure (Glue.Op.andThen x y)
      | "or_else" => pure (Glue.Op.orElse x y)
      | "catch_attempt" => pure (Glue.Op.catchAttempt x)
      | _ => throw s!"bad glue op {name}"
    match Glue.run r0 ops with
    | .ok v => pure (Json.arr #["ok", Json.num ⟨v, 0⟩])
    | .error e => pure (Json.arr #["err", Json.num ⟨e, 0⟩])
  return Json.mkObj [("items", Json.arr outs)]

def dispatch (j : Json) : Except String Json := do
  let op ← j.getObjValAs? String "op"
  match op with
  | "codec" => opCodec j
  | "buf" => opBuf j
  | "layout" => opLayout j
  | "verify" => opVerify j
  | "sched" => opSched j
  | "dbc" => opDbc j
  | "gate" => opGate j
  | "canc" => opCanC j
  | "parse" => opParse j
  | "reflect" => opReflect j
  | "cpp" => opCpp j
  | "frame" => opFrame j
  | "render" => opRender j
  | "rpc" => opRpc j
  | "glue" => opGlue j
  | "utf8" => do
    -- which byte strings are texts: `utf8Valid` on each of the given byte lists
    let items ← j.getObjValAs? (Array Json) "items"
    let outs ← items.toList.mapM fun it => do
      let bs ← J.natList it
      pure (Json.bool (utf8Valid bs))
    return Json.mkObj [("valid", Json.arr outs.toArray)]
  | _ => throw s!"unknown op {op}"

partial def loop (hin : IO.FS.Stream) (hout : IO.FS.Stream) : IO Unit := do
  let line ← hin.getLine
  if line.isEmpty then return ()
  let ans := match Json.parse line >>= dispatch with
    | .ok j => j
    | .error e => Json.mkObj [("driver_err", e)]
  hout.putStrLn ans.compress
  hout.flush
  loop hin hout

def main : IO Unit := do
  let hin ← IO.getStdin
  let hout ← IO.getStdout
  loop hin hout
  hout.flush
