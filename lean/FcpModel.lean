import FcpModel.Bits
import FcpModel.Schema
import FcpModel.Wire
import FcpModel.WireTrunc
import FcpModel.PyCodec
import FcpModel.PyBufLemmas
import FcpModel.PyCodecRefine
import FcpModel.Json
