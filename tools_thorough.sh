#!/bin/bash
# development helper for `vp run`: build, then every thorough check (3 at a time) against /repo; logs under thorough_out/
cd "$(dirname "$0")"
(cd lean && lake build > /dev/null 2>&1)
VERIF_EVIDENCE_DIR=$PWD/thorough_out/evidence ./tools_runall.sh thorough 3 "$PWD/thorough_out/logs"
for f in thorough_out/evidence/*.json; do python3 -c "
import json,sys;e=json.load(open('$f'));print(e['property_id'],e.get('wall_s'),e['coverage'].get('evaluations'))"; done
