#!/bin/bash
# development helper for `vp run --with-repo`: every seeded change against the quick check of its own property.
# Applies seeded/<id>/patch.diff to the snapshot of /repo ($VP_RUN_REPO), runs the check with FCP_REPO pointing there, reverts.
cd "$(dirname "$0")"
R=${VP_RUN_REPO:?needs vp run --with-repo}
(cd lean && lake build > /dev/null 2>&1)
mkdir -p regress_out
for d in seeded/C*; do
  id=$(basename "$d"); prop=${id%%-*}
  if ! git -C "$R" apply --check "$PWD/$d/patch.diff" 2>/dev/null; then echo "$id NOAPPLY"; continue; fi
  git -C "$R" apply "$PWD/$d/patch.diff"
  FCP_REPO=$R VERIF_EVIDENCE_DIR=$PWD/regress_out/ev /venv/bin/python check.py "$prop" --tier quick > "regress_out/$id.log" 2>&1
  rc=$?
  git -C "$R" checkout -- . ; git -C "$R" clean -fdq
  echo "$id exit=$rc $(grep -c '^VIOLATION' regress_out/$id.log) violations"
done
