#!/bin/bash
# development helper: run every quick (or $1=thorough) check, N at a time; summary on stdout
tier=${1:-quick}; par=${2:-5}; out=${3:-/tmp/q}
rm -rf "$out"; mkdir -p "$out"
cd "$(dirname "$0")"
printf '%s\n' C01 C02 C03 C04 C05 C06 C07 C08 C09 C10 C11 C12 C13 C14 C15 C16 C17 C18 C19 C20 | \
 xargs -P "$par" -I{} sh -c "/venv/bin/python check.py {} --tier $tier > $out/{}.log 2>&1; echo {} exit=\$? >> $out/summary"
sort "$out/summary" | tr '\n' ' '; echo
grep -h "^VIOLATION" "$out"/C*.log; true
